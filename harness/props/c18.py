"""C18 -- Creating a table is idempotent and race-safe.

Proof      : coq/Props/C18.v over Model/Create.v (creation machine; what a refused create-if-absent does is READ from
             Gen/GenCommit.v) and Model/CreateSchema.v (kernels of Gen/GenCreateSchema.v), for every interleaving of any
             number of creators / openers on storage with real mutual exclusion (exclusive lock, or conditional pointer
             creation under ANY lock):
               * at most one pointer creation ever succeeds; once every caller has returned EXACTLY one has, and it is the
                 table in effect (C18_single_init, C18_exactly_one_init); the pointer never changes (C18_pointer_stable);
               * an existing table in ANY state whose metadata files carry one identity (any number of versions, pointer
                 intact / lost / dangling) is never re-initialised and every caller ends on it, any storage configuration
                 (C18_existing_never_reinitialised, C18_existing_versions);
               * what a race from nothing LEAVES BEHIND is such a table: only the winner's metadata file stays on storage, so
                 recovery after a pointer loss finds the same table and every later caller ends on it
                 (C18_race_leaves_one_table, C18_race_then_pointer_loss);
               * same table: every call that returns after the publication is on the published table
                 (C18_same_table_published); with the exclusive lock also before it (C18_same_table_partial, hypothesis
                 lockkind = Excl); the full statement about the identity seen AT RETURN is refuted by a witness
                 (C18_same_table_full_refuted: conditional writes + a lock that excludes nobody, an opener returns between two
                 unpublished v0 files) -- Table handles hold no identity, so this is not a violation of the property text;
               * schema: the schema given at creation is in v0 and is what a schema-less append uses; none (or one without
                 fields) -> the append raises before its first storage write and the table is unchanged; after a race it is the
                 schema of the one initialisation that took effect (C18_schema_persisted_and_used,
                 C18_no_schema_append_raises, C18_schema_of_race).
             NOT proved (oracle only): the first appender's COMMIT racing the creators (commits are C01's machine; no theorem
             here says it lands on the winner's table), creators that die between steps, storage faults (re-sent requests).
Tie        : real create_table / load_table / Table(...) calls (and a first appender) run as actors under the scheduler on
             the local backend (real flock; opening and flock()ing the lock file are separate steps, and so is every storage
             operation a backend's create_lock performs on the lock file) and on S3StorageBackend over the in-memory
             conditional-write S3 with a grant-everyone lock, from initial states {absent, healthy, pointer lost, only-v0 with
             pointer lost, (object store) pointer lost under more than one listing page of objects}; EVERY schedule with at most two preemptions for two creators of an absent table, bounded
             enumeration + random otherwise.  The storage log is projected to model events (probe, lock, check, v0 write,
             pointer creation, second resolution + removal of the own v0 after a refused creation, release, adopt) which
             `crun_strict` must accept; compared: number of successful creations, v0 files left on storage, identity of the
             final table, identity found after the pointer is then lost.  Runs in which a first appender's commit creates the
             pointer before a creator does are outside the machine (oracle only; counted in stats).  Schema kernels: six schema
             arguments, v0's (schemas, current_schema_id) and accept / raise of a schema-less append vs the model.
Oracle     : one table identity at the end: every caller's handle resolves to the same table_uuid; an existing table's uuid,
             schema and rows are unchanged; the first appender's rows are in the table; EPILOGUE of every run: the pointer of
             the table the run left behind is deleted and the table opened again -- identity, persisted schemas and rows must
             be those before the loss; a schema given at creation is persisted and used by schema-less appends; with no schema
             anywhere an append raises and writes nothing; a creator dying after each of its steps; a re-sent pointer creation
             answered 412.
"""
from __future__ import annotations

import json
import os
import random as _r
import shutil
from typing import Any, Callable, Dict, List, Optional, Tuple

from harness.lib import coqbuild, mems3, protocol as P, sched as S
from harness.props import c01

LEVEL = "proof"
THEOREMS = ["C18_single_init", "C18_exactly_one_init", "C18_pointer_stable", "C18_existing_never_reinitialised", "C18_existing_versions",
            "C18_race_leaves_one_table", "C18_race_then_pointer_loss", "C18_same_table_published", "C18_same_table_partial",
            "C18_same_table_full_refuted", "C18_skeleton_regenerated",
            "C18_schema_persisted_and_used", "C18_no_schema_append_raises", "C18_schema_of_race"]
REQ = ["DS.Model.Commit", "DS.Model.Create"]
MANIFEST_ENTRY = {
    "level_text": "C18 theorems proved in Coq for every interleaving of any number of creators/openers on storage with real mutual "
                  "exclusion: at most one / at rest exactly one initialisation, pointer stability, an existing table in any one-identity "
                  "state never re-initialised, a race leaves only the winner's metadata behind (so a later pointer loss recovers the "
                  "same table), every call returning after publication is on the published table (before it: only with the exclusive "
                  "lock -- the full 'identity seen at return' statement is refuted by a witness), schema given at creation persisted and "
                  "used, no schema -> append raises before any write; what a refused create-if-absent does and the schema kernels are "
                  "regenerated from the source. NOT proved, oracle only: the first appender's commit racing creators, dying creators, "
                  "storage faults. Real create_table / load_table / Table() calls and a first appender are scheduled at "
                  "storage-operation granularity (lock-file creation included) on local and CAS-S3 backends from five initial states and "
                  "trace-validated against the model; every run's final state is re-opened after deleting its pointer",
    "level_note": "trusted: Coq kernel; translator/gen_commit.py (skeleton of initialize_table, failure classes of the pointer creation, "
                  "_is_table_in_effect pinned: C18_skeleton_regenerated) and gen_createschema.py (source shapes pinned); scheduler harness "
                  "and projection; recovery modelled as 'highest version, newest file' (the code breaks ties by mtime, then listing "
                  "order; the harness clock makes mtimes distinct); in-memory S3 as in C08; C18_same_table_partial carries the extra "
                  "hypothesis lockkind = Excl; a metadata file's content is abstracted to (identity, version)",
    "technique": "Coq invariant proofs over a creation machine whose conflict handling and schema kernels are translator-regenerated + scheduled trace validation + pointer-loss epilogue oracle",
    "design_ref": "DESIGN.md section 5 C18",
}

FIELDS = [{"id": 1, "name": "x", "type": "long", "required": False}]
# a second creator's (different) idea of the schema
FIELDS_B = [{"id": 1, "name": "x", "type": "long", "required": False}, {"id": 2, "name": "y", "type": "string", "required": False}]


# process-wide configurations the create / open races are also run under (names of harness/lib/procconf.py NAMED)
CONFS = ["debug", "app-root-debug", "mod-debug", "debug+env"]


def yield_filter(op: str, path: str, phase: tuple) -> bool:
    pcs = P.path_class(path)
    if op in ("LockTry", "LockFlock", "LockRel", "Fence", "Sleep"):
        return True
    if pcs == "lock":
        return True         # whatever a backend does to the lock file through its own storage operations (create_lock)
    if pcs == "hint" and op in ("exists", "read_file", "read_file_with_etag", "write_file", "write_file_cas"):
        return True
    if op == "list_files" and path.rstrip("/") == "metadata":
        return True
    if op in ("write_file", "delete_file") and pcs == "meta":
        return True
    return False


def actor_body(kind: str, root: str, holder: Dict[str, Any], name: str) -> Callable[[], Any]:
    def body() -> Any:
        import datashard
        from datashard.data_structures import Schema
        if kind == "create":
            t = datashard.create_table(root, Schema(schema_id=1, fields=FIELDS))
        elif kind == "open":
            t = datashard.load_table(root)
        elif kind == "table":
            t = datashard.transaction.Table(root, create_if_not_exists=True, schema=Schema(schema_id=1, fields=FIELDS))
        elif kind == "create_append":
            t = datashard.create_table(root, Schema(schema_id=1, fields=FIELDS))
            S_mark(holder, name, "created")
            t.append_records([{"x": 4242}])
        elif kind == "create_b_append":
            # a creator with a DIFFERENT schema; whoever wins, its schema-less append must follow the PERSISTED schema
            t = datashard.create_table(root, Schema(schema_id=1, fields=FIELDS_B))
            S_mark(holder, name, "created")
            try:
                names = holder["_schema_probe"]()
            except Exception:       # noqa: BLE001 - no pointer yet (the table exists through recovery): ask the metadata itself
                md = t.metadata_manager.refresh()
                cur_schema = next(sch for sch in md.schemas if sch.schema_id == md.current_schema_id)
                names = [f["name"] for f in cur_schema.fields]
            row = {"x": 4242}
            if "y" in names:
                row["y"] = "b"
            t.append_records([row])
        else:
            raise ValueError(kind)
        holder[name] = t
        # the identity of the table this call returned (read straight from storage, not through the library: no
        # scheduling point, nothing logged)
        probe = holder.get("_identity_probe")
        if probe is not None:
            try:
                holder.setdefault("_ident_at_return", {})[name] = probe()
            except Exception as e:      # noqa: BLE001
                holder.setdefault("_ident_at_return", {})[name] = "unreadable: " + repr(e)[:80]
        return "ok"
    return body


def S_mark(holder: Dict[str, Any], name: str, what: str) -> None:
    holder.setdefault("_marks", []).append((name, what))


def run_case(ctx, backend: str, init: str, kinds: List[str], chooser_factory, resend_412: bool = False,
             die_after: Optional[int] = None, conf: Optional[str] = None) -> Dict[str, Any]:
    """conf: the name of a process-wide configuration (harness/lib/procconf.py NAMED: log levels set through the library's or
    the application's API, the library's environment variables) the whole run is executed under; None = as the harness runs."""
    if conf is None:
        return _run_case(ctx, backend, init, kinds, chooser_factory, resend_412, die_after)
    from harness.lib import procconf
    with procconf.applied(procconf.NAMED[conf]):
        out = _run_case(ctx, backend, init, kinds, chooser_factory, resend_412, die_after)
    out["conf"] = conf
    return out


def _run_case(ctx, backend: str, init: str, kinds: List[str], chooser_factory, resend_412: bool = False,
              die_after: Optional[int] = None) -> Dict[str, Any]:
    """resend_412 (object store only): the FIRST create-if-absent PUT of the pointer is applied, its response is lost, the
    client library re-sends it and the caller is told 412 PreconditionFailed -- a conflict with its own write."""
    import datashard
    from datashard.data_structures import Schema
    from datashard.storage_backend import LocalStorageBackend
    sc = S.Scheduler()
    sc.yield_filter = yield_filter
    # the lock file of a table that does not exist yet is created by whoever comes first: opening (creating) it and
    # flock()ing the inode that open returned are separate steps of every file-lock attempt
    sc.fine_locks = backend == "local"
    root = os.path.join(ctx.scratch, "c18")
    shutil.rmtree(root, ignore_errors=True)
    store = mems3.MemS3(sc.now_ms) if backend == "s3cas" else None
    lock_mode = "grant_all" if backend == "s3cas" else "real"

    if store is not None and resend_412:
        from botocore.exceptions import ClientError
        fired = {"n": 0}

        def after_hook(op: str, key: str) -> None:
            if op == "put_object" and key.endswith(P.HINT) and sc.me() is not None and not fired["n"]:
                fired["n"] = 1
                raise ClientError({"Error": {"Code": "PreconditionFailed", "Message": "re-sent request lost to its own first attempt"},
                                   "ResponseMetadata": {"HTTPStatusCode": 412}}, "PutObject")
        store.after_hook = after_hook

    def factory(tp: str) -> Any:
        if store is not None:
            return S.instrument_backend(sc, mems3.make_s3_backend(store, "tbl", True), lock_mode=lock_mode)
        return S.instrument_backend(sc, LocalStorageBackend(tp), lock_mode=lock_mode)
    if store is not None:
        root = "tbl"

    def fetch(rel: str) -> bytes:
        if store is not None:
            return store.objects["tbl/" + rel]["body"]
        with open(os.path.join(root, rel), "rb") as f:
            return f.read()

    def drop_pointer() -> None:
        if store is not None:
            store.objects.pop("tbl/" + P.HINT, None)
        else:
            os.remove(os.path.join(root, P.HINT))
    out: Dict[str, Any] = {"backend": backend, "init": init, "kinds": kinds}
    holder: Dict[str, Any] = {}

    def identity_probe() -> Any:
        import json as _json
        try:
            name = fetch(P.HINT).decode("utf-8").strip()
        except Exception:       # noqa: BLE001
            return None         # no pointer (yet / lost): nothing to compare
        return _json.loads(fetch("metadata/" + name))["table_uuid"]
    holder["_identity_probe"] = identity_probe

    def schema_probe() -> List[str]:
        import json as _json
        md = _json.loads(fetch("metadata/" + fetch(P.HINT).decode("utf-8").strip()))
        cur = next(sch for sch in md["schemas"] if sch["schema_id"] == md["current_schema_id"])
        return [f["name"] for f in cur["fields"]]
    holder["_schema_probe"] = schema_probe
    with S.patched(sc, factory, shared_rlock=True):
        pre = None
        if init != "absent":
            t0 = datashard.create_table(root, Schema(schema_id=7, fields=FIELDS))
            if init in ("healthy", "pointer_lost", "pointer_lost_big"):
                t0.append_records([{"x": -1}])
            pre = P.read_table_independent(fetch)
            if init == "pointer_lost_big":
                # a table with a long history: more than one listing page of (unreferenced) manifests under metadata/
                for k in range(1100):
                    store._put(f"tbl/metadata/manifests/old-{k:04d}.avro", b"")
                store.SERVER_PAGE = 1000        # the real service's page size (the default of the fake is tiny, to exercise paging)
            if init in ("pointer_lost", "v0_pointer_lost", "pointer_lost_big"):
                drop_pointer()
        sc.log.clear()
        for i, k in enumerate(kinds):
            sc.spawn(f"A{i}", actor_body(k, root, holder, f"A{i}"))
        sc.step_hook = lambda a: setattr(sc, "clock_ms", sc.clock_ms + 1)
        sched_rec: List[str] = []
        enabled_at: List[List[str]] = []
        chooser = chooser_factory(sc)

        died = {"steps": 0}

        def rec(en: List[str], s: S.Scheduler) -> Optional[str]:
            enabled_at.append(list(en))
            if die_after is not None:
                # actor A0 is a process that DIES after `die_after` steps: it is never scheduled again (no handler of its
                # runs; what it wrote stays); the others run to completion
                if died["steps"] < die_after and "A0" in en:
                    died["steps"] += 1
                    return "A0"
                rest = [a for a in en if a != "A0"]
                return rest[0] if rest else None
            return chooser(en, s)
        try:
            sched_rec = sc.run(rec)
            out["deadlock"] = None
        except S.Deadlock as e:
            out["deadlock"] = str(e)
            sc.kill_remaining()
        if die_after is not None:
            out["died"] = "A0" if sc.actors["A0"].state != "done" else None
            sc.kill_remaining()
        out["schedule"], out["enabled_at"] = sched_rec, enabled_at
        out["log"] = sc.log
        out["outcomes"] = {n: (("raised", type(a.error).__name__ + ": " + str(a.error)[:100]) if a.error else ("ok", str(a.result))) for n, a in sc.actors.items()}
        # what every caller's handle resolves to now
        uuids = {}
        for n, t in holder.items():
            if n.startswith("_"):
                continue
            md = t.metadata_manager.refresh()
            uuids[n] = md.table_uuid if md else None
        out["uuids"] = uuids
        # the table as the LIBRARY reads it through a fresh handle (full scan: all data files concatenated)
        try:
            lib_rows = datashard.load_table(root).scan()
            out["library_scan"] = sorted(r.get("x") for r in lib_rows)
        except Exception as e:      # noqa: BLE001
            out["library_scan"] = "raised: " + repr(e)[:200]
        out["ident_at_return"] = dict(holder.get("_ident_at_return", {}))
        out["pre"] = pre
        out["meta_files"] = sorted(k for k in (store.objects if store is not None else []) if "/metadata/v" in k) if store is not None else \
            sorted(f for f in os.listdir(os.path.join(root, "metadata")) if f.startswith("v") and f.endswith(".metadata.json"))
        # which caller's initialisation wrote each identity still on storage (99 = the table that existed before)
        wrote_path = {e["path"].rsplit("/", 1)[-1]: int(e["actor"][1:]) for e in sc.log
                      if e["op"] == "write_file" and P.path_class(e["path"]) == "meta" and "MetadataManager.initialize_table" in e["phase"]}
        out["uuid_writer"] = {}
        for mf in out["meta_files"]:
            base = mf.rsplit("/", 1)[-1]
            if base in wrote_path:
                try:
                    out["uuid_writer"][json.loads(fetch("metadata/" + base))["table_uuid"]] = wrote_path[base]
                except Exception:       # noqa: BLE001
                    pass
        if pre is not None:
            out["uuid_writer"][pre["meta"]["table_uuid"]] = 99
        try:
            out["final"] = P.read_table_independent(fetch)
        except Exception as e:
            out["final"] = {"error": repr(e)[:200]}
            pointer_gone = (("tbl/" + P.HINT) not in store.objects) if store is not None else not os.path.exists(os.path.join(root, P.HINT))
            if pointer_gone and init in ("pointer_lost", "v0_pointer_lost", "pointer_lost_big"):
                # creators / openers do not rewrite a lost pointer (only a commit does): the table is then what the recovery
                # rule says -- the highest metadata version on storage -- read here independently of the library
                import re as _re
                names = [m.rsplit("/", 1)[-1] for m in out["meta_files"]]
                best = max(names, key=lambda n: int(_re.match(r"v(\d+)", n).group(1))) if names else None
                if best is not None:
                    try:
                        out["final"] = P.read_table_independent(lambda rel: best.encode() if rel == P.HINT else fetch(rel))
                        out["final_via_recovery"] = best
                    except Exception as e2:
                        out["final"] = {"error": repr(e2)[:200]}
        # EPILOGUE (every run that ended on a readable table with a pointer): the state this run LEFT BEHIND is an initial
        # state of its own -- lose the pointer now and open the table again.  What the library then serves (identity, persisted
        # schemas, rows) is compared by the oracle with the table as it was before the pointer was lost.
        out["after_pointer_loss"] = None
        if "error" not in out["final"] and "final_via_recovery" not in out and not out["deadlock"] and out.get("died") is None:
            try:
                drop_pointer()
                t2 = datashard.load_table(root)
                md2 = t2.metadata_manager.refresh()
                out["after_pointer_loss"] = {
                    "table_uuid": md2.table_uuid, "current_schema_id": md2.current_schema_id,
                    "schemas": [(sch.schema_id, [(f.get("id"), f.get("name"), f.get("type")) for f in sch.fields]) for sch in md2.schemas],
                    "rows": sorted(r.get("x") for r in t2.scan())}
            except Exception as e3:     # noqa: BLE001
                out["after_pointer_loss"] = {"error": repr(e3)[:200]}
    return out


def oracle(out: Dict[str, Any]) -> Optional[str]:
    if out["deadlock"]:
        return "deadlock: " + out["deadlock"]
    if "error" in out["final"]:
        return "table unreadable at the end: " + out["final"]["error"]
    fin = out["final"]
    opened_missing = out["init"] == "absent" and any(k == "open" for k in out["kinds"])
    for n, (st, d) in out["outcomes"].items():
        if out.get("died") == n:
            continue            # the process that died has no outcome
        kind = out["kinds"][int(n[1:])]
        if st != "ok" and not (kind == "open" and "No Iceberg table" in d and out["init"] == "absent"):
            return f"{kind} call {n} raised: {d}"
    if isinstance(out.get("library_scan"), str) and any(st == "ok" for st, _d in out["outcomes"].values()) and "error" not in fin:
        return f"after the run a fresh handle cannot scan the table: {out['library_scan']}"
    if isinstance(out.get("library_scan"), list) and "error" not in fin and out["library_scan"] != sorted(r["x"] for r in fin["rows"]):
        return f"a fresh handle's scan {out['library_scan']} differs from the table's content {sorted(r['x'] for r in fin['rows'])}"
    # a table that a successful create / open call returned keeps its identity
    for n, u in sorted(out.get("ident_at_return", {}).items()):
        if u is not None and "error" not in fin and u != fin["meta"]["table_uuid"]:
            return (f"the table {n}'s call returned had identity {u}; at the end the pointer names identity {fin['meta']['table_uuid']}: "
                    f"the identity of an existing table was replaced")
    ids = {u for u in out["uuids"].values()}
    if len(ids) > 1:
        return f"callers ended up on different tables: {out['uuids']}"
    if ids and fin["meta"]["table_uuid"] not in ids:
        return f"callers' table {ids} is not the table the pointer names ({fin['meta']['table_uuid']})"
    if out["pre"] is not None:
        pre = out["pre"]
        if fin["meta"]["table_uuid"] != pre["meta"]["table_uuid"]:
            return f"identity of the existing table was replaced: {pre['meta']['table_uuid']} -> {fin['meta']['table_uuid']}"
        if fin["meta"]["schemas"] != pre["meta"]["schemas"] or fin["meta"]["current_schema_id"] != pre["meta"]["current_schema_id"]:
            return "persisted schema of the existing table was replaced"
        want = sorted(r["x"] for r in pre["rows"]) + [4242] * sum(1 for k in out["kinds"] if k in ("create_append", "create_b_append"))
        if sorted(r["x"] for r in fin["rows"]) != sorted(want):
            return f"committed data of the existing table changed: {sorted(r['x'] for r in fin['rows'])} vs {sorted(want)}"
    elif any(k in ("create_append", "create_b_append") for k in out["kinds"]):
        if sorted(r["x"] for r in fin["rows"]) != [4242] * sum(1 for k in out["kinds"] if k in ("create_append", "create_b_append")):
            return f"first appender's rows not in the table: {fin['rows']}"
    return pointer_loss_oracle(out)


def pointer_loss_oracle(out: Dict[str, Any]) -> Optional[str]:
    """The table a run left behind, with its pointer then lost, is still THAT table (identity, persisted schemas, data)."""
    apl, fin = out.get("after_pointer_loss"), out["final"]
    if apl is None:
        return None
    if "error" in apl:
        return f"the table this run left behind cannot be opened once its pointer is lost: {apl['error']}"
    if apl["table_uuid"] != fin["meta"]["table_uuid"]:
        return (f"the table this run left behind has identity {fin['meta']['table_uuid']}; once its pointer is lost, a fresh handle is on "
                f"identity {apl['table_uuid']}: the identity of an existing table was replaced (metadata files: {out['meta_files']})")
    want = [(sch["schema_id"], [(f.get("id"), f.get("name"), f.get("type")) for f in sch["fields"]]) for sch in fin["meta"]["schemas"]]
    if [(i, [tuple(x) for x in fs]) for i, fs in apl["schemas"]] != want or apl["current_schema_id"] != fin["meta"]["current_schema_id"]:
        return f"once the pointer is lost the persisted schema of the table is replaced: {apl['schemas']} vs {want}"
    if apl["rows"] != sorted(r["x"] for r in fin["rows"]):
        return f"once the pointer is lost the committed data changes: {apl['rows']} vs {sorted(r['x'] for r in fin['rows'])}"
    return None


# ------------------------------------------------------------------------------------------ projection
def project(out: Dict[str, Any]) -> Tuple[List[Tuple[int, str]], List[str]]:
    """Creator/opener events for Model/Create.v (the commit of a first appender is not part of that machine).
    Every event is keyed by the log index of its decisive storage operation; a resolve (probe / check / adopt) is
    decided by the LAST operation of its refresh (pointer read, or the recovery listing when the pointer is absent)."""
    items: List[List[Any]] = []          # [key, actor index, text]
    st: Dict[str, Dict[str, Any]] = {}
    log = out["log"]
    # a file-lock attempt is decided by its flock() (a step of its own on the local backend), not by its beginning
    decided: Dict[int, int] = {}
    for idx, e in enumerate(log):
        if e["op"] == "LockTry":
            decided[idx] = idx
            for j in range(idx + 1, len(log)):
                if log[j]["actor"] == e["actor"]:
                    if log[j]["op"] == "LockFlock":
                        decided[idx] = j
                    break
    # intervals during which a COMMIT (the first appender's; C01's machine) holds the table lock
    held: List[Tuple[int, int]] = []
    open_at: Dict[str, int] = {}
    for idx, e in enumerate(log):
        if "MetadataManager.initialize_table" not in e["phase"]:
            if e["op"] == "LockTry" and e["result"] == "ok":
                open_at[e["actor"]] = decided[idx]
            elif e["op"] == "LockRel" and e["actor"] in open_at:
                held.append((open_at.pop(e["actor"]), idx))
    held += [(start, len(log)) for start in open_at.values()]
    for idx, e in enumerate(log):
        a, op, path, phase, result = e["actor"], e["op"], e["path"], e["phase"], e["result"]
        ai = int(a[1:])
        s = st.setdefault(a, {"stage": "probe", "probe": None, "check": None, "adopt": None})
        pcs = P.path_class(path)
        ext_holder = op == "LockTry" and any(start < decided[idx] <= end for start, end in held)
        if any(p.startswith("Transaction.") for p in phase) or "Table.append_records" in phase:
            continue      # the appender's transaction: C01's machine
        in_init = "MetadataManager.initialize_table" in phase
        is_resolve_op = (pcs == "hint" and op in ("exists", "read_file")) or op == "list_files"
        if s["stage"] == "probe" and is_resolve_op and not in_init:
            if s["probe"] is None:
                s["probe"] = [idx, ai, "CProbe true"]
                items.append(s["probe"])
            elif "refresh_done" not in s:
                s["probe"][0] = idx
            if op == "list_files" or (pcs == "hint" and op == "read_file"):
                s["refresh_done"] = True      # later refreshes of the same call (create_table's schema check) are not the probe
        elif in_init and op == "LockTry" and result != "ok" and ext_holder:
            # the lock is held by a committer, which Model/Create.v does not contain: a failed try is a stutter step
            if s["probe"] is not None:
                s["probe"][2] = "CProbe false"
            s["stage"] = "lockwait"
            s["locktry"] = None
        elif in_init and op == "LockTry":
            if s["probe"] is not None:
                s["probe"][2] = "CProbe false"
            s["locktry"] = [idx, ai, f"CLockTry {'true' if result == 'ok' else 'false'}"]
            items.append(s["locktry"])
            s["stage"] = "check" if result == "ok" else "lockwait"
        elif in_init and op == "LockFlock":
            if s.get("locktry") is not None:
                s["locktry"][0] = idx       # the attempt is decided by its flock(), a step of its own
        elif in_init and s["stage"] == "check" and is_resolve_op:
            if s["check"] is None:
                s["check"] = [idx, ai, "CCheck true"]
                items.append(s["check"])
            else:
                s["check"][0] = idx
        elif in_init and op == "write_file" and pcs == "meta":
            if s["check"] is not None:
                s["check"][2] = "CCheck false"
            items.append([idx, ai, "CMetaW"])
        elif in_init and op in ("write_file", "write_file_cas") and pcs == "hint":
            items.append([idx, ai, f"CPtrCreate {'true' if result == 'ok' else 'false'}"])
            if result != "ok":
                s["stage"] = "conflict"
        elif in_init and s["stage"] == "conflict" and is_resolve_op:
            # the refused creator resolves the table again (_is_table_in_effect): "this one" unless a removal of its v0 follows
            if s.get("recheck") is None:
                s["recheck"] = [idx, ai, "CRecheck true"]
                items.append(s["recheck"])
            else:
                s["recheck"][0] = idx
        elif in_init and s["stage"] == "conflict" and op == "delete_file" and pcs == "meta":
            if s.get("recheck") is not None:
                s["recheck"][2] = "CRecheck false"
            items.append([idx, ai, "CDiscard"])
        elif in_init and op == "LockRel":
            items.append([idx, ai, "CRelease"])
            s["stage"] = "adopt"
        elif s["stage"] == "adopt" and is_resolve_op and not in_init:
            if s["adopt"] is None:
                s["adopt"] = [idx, ai, "CAdopt"]
                items.append(s["adopt"])
            elif "adopt_done" not in s:
                s["adopt"][0] = idx
            if op == "list_files" or (pcs == "hint" and op == "read_file"):
                s["adopt_done"] = True
    # an opener that found no table (load_table raised "No Iceberg table") probed false and does nothing else
    for a, s in st.items():
        o = out["outcomes"].get(a)
        if o and o[0] != "ok" and "No Iceberg table" in o[1] and s["probe"] is not None and out["kinds"][int(a[1:])] in ("open", "table"):
            s["probe"][2] = "CProbe false"
    items.sort(key=lambda x: x[0])
    return [(ai, k) for _key, ai, k in items], []


def model_expr(out: Dict[str, Any], evs: List[Tuple[int, str]]) -> str:
    n = len(out["kinds"])
    cfgs = "{| cas := %s; lockkind := %s |}" % (("true", "GrantAll") if out["backend"] == "s3cas" else ("false", "Excl"))
    # the existing table: owner 99, metadata versions 0..k on storage (healthy / pointer_lost: one commit was made)
    init = {"absent": "absent", "healthy": "existing_n 99%nat 1%nat false", "pointer_lost": "existing_n 99%nat 1%nat true",
            "pointer_lost_big": "existing_n 99%nat 1%nat true", "v0_pointer_lost": "existing_n 99%nat 0%nat true"}[out["init"]]
    ev = "[" + "; ".join(f"{{| ce_actor := {ai}%nat; ce_kind := {k} |}}" for ai, k in evs) + "]"
    code = "(fun o => match o with Some u => Z.of_nat (S (S u)) | None => 1 end)"
    return (f"match crun_strict {cfgs} ({init}) {ev} 0%nat with "
            f"| inl w => (1, (Z.of_nat (List.length (c_creates w)), Z.of_nat (List.length (live_files w)), "
            f"[{code} (table_id w); {code} (table_id (lose_ptr w))])) | inr i => (0, (Z.of_nat i, 0, [])) end")


def explore(ctx, backend: str, init: str, kinds: List[str], max_preempt: int, limit: int):
    from collections import deque
    queue = deque([()])
    seen = set()
    n = 0
    while queue and n < limit:
        dev = queue.popleft()
        out = run_case(ctx, backend, init, kinds, c01.dev_chooser(dict(dev)))
        key = tuple(out["schedule"])
        if key in seen:
            continue
        seen.add(key)
        n += 1
        yield dev, out
        if len(dev) < max_preempt:
            start = (dev[-1][0] + 1) if dev else 0
            for i in range(start, len(out["schedule"])):
                for b in out["enabled_at"][i]:
                    if b != out["schedule"][i]:
                        queue.append(dev + ((i, b),))


SCHEMA_ARGS: List[Optional[Tuple[int, List[Dict[str, Any]]]]] = [
    None, (5, []), (0, []), (0, FIELDS), (3, FIELDS), (1, FIELDS_B),
]


def schema_cases(ctx) -> Tuple[List[str], List[Dict[str, Any]]]:
    """Oracle + correspondence of the schema kernels (Gen/GenCreateSchema.v through Model/CreateSchema.v): for every schema
    argument -- none, one without fields, ids 0 / non-0, one / two fields -- the v0 metadata a creation writes carries the
    (schemas, current_schema_id) of v0_schemas; a schema-less append through a fresh handle uses table_schema, or raises and
    writes nothing when there is none."""
    import datashard
    from datashard.data_structures import Schema
    exprs, impls = [], []
    for k, arg in enumerate(SCHEMA_ARGS):
        root = os.path.join(ctx.scratch, f"c18-schema-{k}")
        shutil.rmtree(root, ignore_errors=True)
        datashard.create_table(root, None if arg is None else Schema(schema_id=arg[0], fields=[dict(f) for f in arg[1]]))
        meta = P.read_table_independent(root)["meta"]
        impl: Dict[str, Any] = {"schemas": [(sc["schema_id"], len(sc["fields"])) for sc in meta["schemas"]], "current": meta["current_schema_id"]}

        def listing() -> List[str]:
            out = []
            for d, _ds, fs in os.walk(root):
                out += [os.path.relpath(os.path.join(d, f), root) for f in fs if not f.endswith(".lock")]
            return sorted(out)
        before = listing()
        row = {"x": 5}
        try:
            datashard.load_table(root).append_records([row])
            impl["append"] = "ok"
            got = datashard.load_table(root).scan()
            want_cols = [f["name"] for f in arg[1]] if arg else []
            if [sorted(r.keys()) for r in got] != [sorted(want_cols)] or got[0].get("x") != 5:
                ctx.violation("schema-not-persisted", f"create_table(schema={arg}) then a schema-less append: the row read back is {got}, "
                              f"not one row over the columns {want_cols} of the schema given at creation", {"schema_arg": k})
        except ValueError as e:
            impl["append"] = "raises" if "No schema available" in str(e) else "raises-other: " + str(e)[:80]
            after = listing()
            if after != before:
                ctx.violation("no-schema-append-wrote", f"create_table(schema={arg}): the rejected schema-less append left files behind: "
                              f"{sorted(set(after) - set(before))}", {"schema_arg": k})
        usable = arg is not None and len(arg[1]) > 0
        if usable and impl["append"] != "ok":
            ctx.violation("schema-not-used", f"create_table(schema={arg}) then a schema-less append: {impl['append']}", {"schema_arg": k})
        if not usable and impl["append"] == "ok":
            ctx.violation("no-schema-append-accepted", f"create_table(schema={arg}): an append without any available schema did not raise",
                          {"schema_arg": k})
        if usable and (arg[0], len(arg[1])) not in impl["schemas"]:
            ctx.violation("schema-not-persisted", f"create_table(schema={arg}): the v0 metadata carries the schemas {impl['schemas']}", {"schema_arg": k})
        ctx.count(1, ("schema", k))
        if arg is None:
            term = "None"
        else:
            fs = "; ".join(f"{{| fid := {f['id']}%Z; fname := {f['id']}%Z; ftype := {'CPrim T_long' if f['type'] == 'long' else 'CPrim T_string'}; fspell := 0%Z; freq := false |}}"
                           for f in arg[1])
            term = f"(Some {{| sid := {arg[0]}%Z; sfields := [{fs}]; sstring := 0%Z |}})"
        exprs.append(f"(map (fun s => (sid s, Z.of_nat (List.length (sfields s)))) (fst (v0_schemas {term})), snd (v0_schemas {term}), "
                     f"match table_schema {term} with Some s => (1, sid s) | None => (0, 0) end)")
        impls.append({"arg": arg and [arg[0], len(arg[1])], **impl})
    return exprs, impls


def schema_replay(ctx, k: int) -> int:
    before = len(ctx.violations) if hasattr(ctx, "violations") else 0
    saved = SCHEMA_ARGS[:]
    try:
        SCHEMA_ARGS[:] = [saved[k]]
        schema_cases(ctx)
    finally:
        SCHEMA_ARGS[:] = saved
    return before


def run(ctx) -> None:
    ctx.rule = ("schedules of 2-3 creators/openers (create_table, load_table, Table(), create+first append) at storage-operation "
                "granularity (lock-file creation: open / flock / backend writes are steps) x initial state {absent, healthy, pointer lost, "
                "v0 only + pointer lost, pointer lost + >1 listing page (object store)} x {local flock, CAS-S3 with a grant-everyone lock}; all <=2-preemption schedules for two creators "
                "of an absent table, bounded-preemption enumeration + random otherwise; every run followed by a pointer loss + reopen; "
                "six schema arguments; distinct = executed schedule")
    ctx.trusted_base += ["harness/lib/sched.py, mems3.py; harness/props/c18.py projection of storage calls onto creation events"]
    ctx.proofs(THEOREMS, gen_files=["GenCommit.v", "GenCreateSchema.v"])
    ctx.allow_axioms([])
    quick = ctx.tier == "quick"
    s_exprs, s_impls = schema_cases(ctx)
    try:
        s_vals = coqbuild.coq_eval(["DS.Gen.GenSchema", "DS.Model.Schema", "DS.Model.CreateSchema"], s_exprs)
    except RuntimeError as e:
        ctx.proof_problems.append("model evaluation (schema kernels) failed: " + str(e)[:800])
        s_vals = []
    s_bad = []
    for impl, val in zip(s_impls, s_vals):
        schemas, cur, (has, sid_) = val
        model = {"schemas": [tuple(x) for x in schemas], "current": cur, "append": "ok" if has == 1 else "raises"}
        got = {"schemas": [tuple(x) for x in impl["schemas"]], "current": impl["current"], "append": impl["append"]}
        if model != got or (has == 1 and sid_ != impl["arg"][0]):
            s_bad.append({"schema_arg": impl["arg"], "model": model, "impl": got})
    ctx.correspondence("create-schema", len(s_vals), s_bad)
    plans = []
    for backend in ("local", "s3cas"):
        for init in ("absent", "healthy", "pointer_lost", "v0_pointer_lost") + (("pointer_lost_big",) if backend == "s3cas" else ()):
            sets = [["create", "create"], ["create", "create_append"], ["create", "open"], ["table", "create", "create"]]
            if quick:
                sets = sets[:2] if init == "absent" else sets[1:2]
            if init == "absent":
                sets = sets + [["create_append", "create_b_append"], ["create_b_append", "create_append"]]   # creators that disagree about the schema
            for kinds in sets:
                plans.append((backend, init, kinds))
    exprs, metas, bad = [], [], []
    total = 0
    outside = [0]
    conf_seen: Dict[str, int] = {}
    for backend, init, kinds in plans:
        # two creators of a table that does not exist yet (nor does its lock file): EVERY schedule with at most two preemptions
        full = init == "absent" and kinds == ["create", "create"]
        runs = list(explore(ctx, backend, init, kinds, 2 if quick else 3, (600 if full else 22 if init == "absent" else 6) if quick else 1500 if full else 300))
        for k in range(2 if quick else 40):
            seed = ctx.rng.randrange(1 << 30)
            runs.append(([("random", seed)], run_case(ctx, backend, init, kinds, lambda sc, seed=seed: S.random_chooser(_r.Random(seed), 0.4))))
        # ... and under process-wide configurations other than the default (library logger at DEBUG through its own API, through
        # the application's root logger, ...): what the library logs must not change what it does
        for ci, conf in enumerate(CONFS if not quick else CONFS[:2]):
            runs.append(([], run_case(ctx, backend, init, kinds, c01.dev_chooser({}), conf=conf)))
            if not quick or ci == 0:
                seed = ctx.rng.randrange(1 << 30)
                runs.append(([("random", seed)], run_case(ctx, backend, init, kinds, lambda sc, seed=seed: S.random_chooser(_r.Random(seed), 0.4), conf=conf)))
        for dev, out in runs:
            total += 1
            ctx.count(1, (backend, init, tuple(kinds), tuple(out["schedule"]), out.get("conf")))
            conf_seen[out.get("conf") or "as-run"] = conf_seen.get(out.get("conf") or "as-run", 0) + 1
            why = oracle(out)
            if why:
                ctx.violation(f"create-race:{backend}:{init}:{'+'.join(kinds)}" + (f":conf-{out['conf']}" if out.get("conf") else ""),
                              why + (f" [process configuration: {out['conf']}]" if out.get("conf") else ""),
                              {"backend": backend, "init": init, "kinds": kinds, "deviations": list(dev), "schedule": out["schedule"],
                               "conf": out.get("conf")})
            evs, _notes = project(out)
            # Outside Model/Create.v: the first appender adopted a creator's (not yet pointed) v0 through recovery and its
            # COMMIT created the pointer before the creator did.  Commits belong to C01's machine; the run is judged by
            # the oracle only (everyone must still end on one identity).
            ptr_writes = [(i, "init" if "MetadataManager.initialize_table" in e["phase"] else "commit") for i, e in enumerate(out["log"])
                          if e["op"] in ("write_file", "write_file_cas") and P.path_class(e["path"]) == "hint"]
            if any(k == "commit" for _i, k in ptr_writes) and any(k == "init" and i > min(j for j, kk in ptr_writes if kk == "commit") for i, k in ptr_writes):
                outside[0] += 1
                continue
            if "create_b_append" in kinds:
                outside[0] += 1          # two appenders: their commits are C01's machine; creation is judged by the oracle here
                continue
            exprs.append(model_expr(out, evs))
            metas.append((backend, init, kinds, dev, out, evs))
    # object store: a creator DIES after each of its steps; a second creator then creates the table and appends
    probe = run_case(ctx, "s3cas", "absent", ["create"], c01.dev_chooser({}))
    n0 = sum(1 for a in probe["schedule"] if a == "A0")
    for k in range(0, n0 + 1):
        out = run_case(ctx, "s3cas", "absent", ["create", "create_append"], c01.dev_chooser({}), die_after=k)
        total += 1
        outside[0] += 1
        ctx.count(1, ("s3cas", "absent-creator-dies", k))
        why = oracle(out)
        if why:
            ctx.violation("create-race:s3cas:absent-creator-dies", f"{why} [the first creator died after {k} of its {n0} steps]",
                          {"backend": "s3cas", "init": "absent", "kinds": ["create", "create_append"], "deviations": [], "schedule": out["schedule"], "die_after": k})
    # object store: the pointer create is applied, its response lost, the re-sent request answered 412 (oracle only)
    for kinds in (["create"], ["create", "open"], ["create", "create"], ["create_append", "create"]):
        out = run_case(ctx, "s3cas", "absent", kinds, c01.dev_chooser({}), resend_412=True)
        total += 1
        outside[0] += 1
        ctx.count(1, ("s3cas", "absent-resend412", tuple(kinds)))
        why = oracle(out)
        if why:
            ctx.violation(f"create-race:s3cas:absent-resend412:{'+'.join(kinds)}", why,
                          {"backend": "s3cas", "init": "absent", "kinds": kinds, "deviations": [], "schedule": out["schedule"], "resend_412": True})
    ctx.stats["schedules"] = total
    ctx.stats["process_configurations"] = conf_seen
    try:
        vals = coqbuild.coq_eval(REQ, exprs, chunk=80)
    except RuntimeError as e:
        ctx.proof_problems.append("model evaluation failed: " + str(e)[:800])
        vals = []
    two_files = 0
    for (backend, init, kinds, dev, out, evs), val in zip(metas, vals):
        ok, (ncreates, nlive, codes) = val
        if ok != 1:
            bad.append({"backend": backend, "init": init, "kinds": kinds, "schedule": out["schedule"], "rejected_event_index": ncreates,
                        "events": evs[max(0, ncreates - 5): ncreates + 1]})
            continue
        impl_creates = sum(1 for e in out["log"] if "MetadataManager.initialize_table" in e["phase"] and e["op"] in ("write_file", "write_file_cas")
                           and P.path_class(e["path"]) == "hint" and e["result"] == "ok")
        impl_v0 = sum(1 for f in out["meta_files"] if f.rsplit("/", 1)[-1].startswith("v0"))
        two_files += 1 if impl_v0 > 1 else 0
        model = {"creates": ncreates, "table": codes[0], "table_after_pointer_loss": codes[1]}
        impl: Dict[str, Any] = {"creates": impl_creates}
        if init == "absent":
            # metadata files left on storage (an appender's v1.. are not the creation machine's)
            model["v0_files_left"], impl["v0_files_left"] = nlive, impl_v0

        def code_of(u: Optional[str]) -> Optional[int]:
            return None if u is None else (out["uuid_writer"][u] + 2 if u in out["uuid_writer"] else -1)
        fin, apl = out["final"], out.get("after_pointer_loss")
        impl["table"] = code_of(fin["meta"]["table_uuid"]) if "error" not in fin else 1
        committed = any(not f.rsplit("/", 1)[-1].startswith("v0") for f in out["meta_files"]) and init == "absent"
        if apl is not None and "error" not in apl and not committed:
            # (a first appender's commit wrote v1: recovery prefers it to every v0; commits are not in the creation machine --
            # the oracle has judged the run)
            impl["table_after_pointer_loss"] = code_of(apl["table_uuid"])
        else:
            model.pop("table_after_pointer_loss")
        if model != impl:
            bad.append({"backend": backend, "init": init, "kinds": kinds, "schedule": out["schedule"], "model": model, "impl": impl})
    ctx.stats["runs_with_two_v0_files"] = two_files
    ctx.stats["runs_where_a_refused_creator_removed_its_v0"] = sum(1 for m in metas if any(k == "CDiscard" for _a, k in m[5]))
    ctx.stats["runs_outside_creation_model_commit_created_pointer"] = outside[0]
    if metas:
        b, i, k, d, o, e = metas[0]
        ctx.sample({"backend": b, "init": i, "kinds": k, "schedule": o["schedule"], "model_events": e})
    ctx.stats["runs_compared_with_the_creation_machine"] = len(metas)
    ctx.correspondence("create-trace", len(metas), bad)


def replay(ctx, payload) -> int:
    c = payload.get("case", {})
    if "schema_arg" in c:
        seen: List[str] = []
        real_violation = ctx.violation
        ctx.violation = lambda key, what, payload=None: seen.append(what)      # type: ignore[assignment]
        try:
            schema_replay(ctx, int(c["schema_arg"]))
        finally:
            ctx.violation = real_violation                                      # type: ignore[assignment]
        print("replay:", "STILL FAILS: " + seen[0] if seen else "passes now")
        return 1 if seen else 0
    if "kinds" not in c:
        print("replay: no concrete case")
        return 2
    dev = c.get("deviations", [])
    if c.get("conf"):
        ch = (lambda sc: S.random_chooser(_r.Random(dev[0][1]), 0.4)) if dev and dev[0][0] == "random" else c01.dev_chooser({int(i): a for i, a in dev})
        out = run_case(ctx, c["backend"], c["init"], c["kinds"], ch, conf=c["conf"])
    elif c.get("die_after") is not None:
        out = run_case(ctx, c["backend"], c["init"], c["kinds"], c01.dev_chooser({}), die_after=c["die_after"])
    elif c.get("resend_412"):
        out = run_case(ctx, c["backend"], c["init"], c["kinds"], c01.dev_chooser({}), resend_412=True)
    elif dev and dev[0][0] == "random":
        out = run_case(ctx, c["backend"], c["init"], c["kinds"], lambda sc: S.random_chooser(_r.Random(dev[0][1]), 0.4))
    else:
        out = run_case(ctx, c["backend"], c["init"], c["kinds"], c01.dev_chooser({int(i): a for i, a in dev}))
    why = oracle(out)
    print("replay:", "STILL FAILS: " + why if why else "passes now")
    return 1 if why else 0
