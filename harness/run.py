"""Entry point: python -m harness.run <Cxx> <quick|thorough> [--replay FILE]"""
from __future__ import annotations

import argparse
import importlib
import json
import os
import sys
import traceback

from harness.lib.common import Check


def main() -> int:
    import logging
    logging.disable(logging.ERROR)        # the library logs every injected failure; keep the check output readable
    ap = argparse.ArgumentParser()
    ap.add_argument("pid")
    ap.add_argument("tier", nargs="?", default=os.environ.get("VERIF_TIER", "quick"), choices=["quick", "thorough"])
    ap.add_argument("--replay", default=None)
    args = ap.parse_args()
    pid = args.pid.upper()
    seed = int(os.environ.get("VERIF_SEED", "20260925"))
    mod = importlib.import_module(f"harness.props.{pid.lower()}")
    ctx = Check(pid, args.tier, seed)
    if args.replay:
        with open(args.replay) as f:
            payload = json.load(f)
        return int(mod.replay(ctx, payload))
    try:
        mod.run(ctx)
    except Exception:
        # a crash of the harness itself must never look like a pass
        tb = traceback.format_exc()
        ctx.proof_problems.append("check harness raised: " + tb[-1500:])
    return ctx.finish(getattr(mod, "LEVEL", "proof"))


if __name__ == "__main__":
    sys.exit(main())
