"""Entry point: python -m harness.run <Cxx> <quick|thorough> [--replay FILE]"""
from __future__ import annotations

import argparse
import importlib
import json
import os
import sys
import traceback

from harness.lib.common import Check


def _tree() -> tuple:
    """(resident kB of this process and all its descendants, the descendants' pids)."""
    kids: dict = {}
    rss: dict = {}
    for d in os.listdir("/proc"):
        if not d.isdigit():
            continue
        try:
            with open(f"/proc/{d}/status") as f:
                st = f.read()
        except OSError:
            continue
        ppid = vm = 0
        for ln in st.splitlines():
            if ln.startswith("PPid:"):
                ppid = int(ln.split()[1])
            elif ln.startswith("VmRSS:"):
                vm = int(ln.split()[1])
        kids.setdefault(ppid, []).append(int(d))
        rss[int(d)] = vm
    total, todo, desc = 0, [os.getpid()], []
    while todo:
        p = todo.pop()
        total += rss.get(p, 0)
        desc.extend(kids.get(p, []))
        todo.extend(kids.get(p, []))
    return total, desc


def _watchdog(ctx: Check, level: str, max_s: float, max_rss_gb: float) -> None:
    """A change to the library can make an operation loop or eat memory (a listing that follows symlink loops, ...).
    The check must then REPORT, not hang: past the limits it records the fact as a broken obligation, writes the
    verdict and evidence with what was explored so far, and exits."""
    import signal
    import threading
    import time

    def loop() -> None:
        t0 = time.time()
        while True:
            time.sleep(3)
            why = None
            if time.time() - t0 > max_s:
                why = f"check did not finish within {max_s:.0f} s"
            else:
                try:
                    gb = _tree()[0] / 1e6
                except Exception:       # noqa: BLE001
                    gb = 0.0
                if gb > max_rss_gb:
                    why = f"check (with its children) grew to {gb:.1f} GB resident memory (limit {max_rss_gb:.0f} GB)"
            if why:
                ctx.proof_problems.append("resource limit: " + why + " -- a library operation loops or runs away under the harness's inputs; "
                                          "the property is not shown on this tree")
                try:
                    code = ctx.finish(level)
                finally:
                    sys.stdout.flush()
                    try:
                        for child in _tree()[1]:
                            try:
                                os.kill(child, signal.SIGKILL)
                            except OSError:
                                pass
                    except Exception:   # noqa: BLE001
                        pass
                    os._exit(code or 1)
    threading.Thread(target=loop, name="check-watchdog", daemon=True).start()


def main() -> int:
    import logging
    logging.disable(logging.ERROR)        # the library logs every injected failure; keep the check output readable
    ap = argparse.ArgumentParser()
    ap.add_argument("pid")
    ap.add_argument("tier", nargs="?", default=os.environ.get("VERIF_TIER", "quick"), choices=["quick", "thorough"])
    ap.add_argument("--replay", default=None)
    args = ap.parse_args()
    pid = args.pid.upper()
    seed = int(os.environ.get("VERIF_SEED", "20260925"))
    mod = importlib.import_module(f"harness.props.{pid.lower()}")
    ctx = Check(pid, args.tier, seed)
    if args.replay:
        with open(args.replay) as f:
            payload = json.load(f)
        return int(mod.replay(ctx, payload))
    _watchdog(ctx, getattr(mod, "LEVEL", "proof"),
              float(os.environ.get("DATASHARD_VERIF_MAX_S", "1800" if args.tier == "quick" else "10800")),
              float(os.environ.get("DATASHARD_VERIF_MAX_RSS_GB", "24")))
    try:
        mod.run(ctx)
    except Exception:
        # a crash of the harness itself must never look like a pass
        tb = traceback.format_exc()
        ctx.proof_problems.append("check harness raised: " + tb[-1500:])
    return ctx.finish(getattr(mod, "LEVEL", "proof"))


if __name__ == "__main__":
    sys.exit(main())
